"""Run-time contract of ``flox.core.groupby_reduce`` (the bounded stand-in, DESIGN.md §2.2 RTC).

A *case* is a JSON-able dict describing one call.  ``run_case`` executes the real function on it,
``oracle`` computes the postcondition G(SPEC) of DESIGN.md §3 with NumPy only (members of each group,
in original order, reduced by the NumPy function the property names), ``check_case`` compares.

Nothing here imports flox at module import time, so that workers pick up /repo's working tree.
"""

from __future__ import annotations

import itertools
import math
import warnings

import numpy as np

FLOAT_ALPHABET = [-2.0, -1.0, 0.0, 1.0, 3.0, float("nan"), float("inf"), float("-inf")]

ARG_FUNCS = ("argmax", "argmin", "nanargmax", "nanargmin")
FIRSTLAST = ("first", "last", "nanfirst", "nanlast")
ORDER_STATS = ("median", "nanmedian", "quantile", "nanquantile")
EXACT_FUNCS = ("max", "min", "nanmax", "nanmin", "count", "any", "all") + ARG_FUNCS + FIRSTLAST


# ----------------------------------------------------------------------------------------------
# encoding
# ----------------------------------------------------------------------------------------------


def enc(a) -> dict:
    a = np.asarray(a)
    kind = a.dtype.kind
    if kind in "Mm":
        data = a.astype("int64").ravel().tolist()
        return {"dtype": str(a.dtype), "shape": list(a.shape), "data": data, "as_int64": True}
    if kind in "fc":
        data = []
        for v in a.ravel().tolist():
            if v != v:
                data.append("nan")
            elif v == math.inf:
                data.append("inf")
            elif v == -math.inf:
                data.append("-inf")
            else:
                data.append(v)
        return {"dtype": str(a.dtype), "shape": list(a.shape), "data": data}
    if kind in "OU":
        return {
            "dtype": "object" if kind == "O" else str(a.dtype),
            "shape": list(a.shape),
            "data": [("nan" if (isinstance(v, float) and v != v) else v) for v in a.ravel().tolist()],
        }
    return {"dtype": str(a.dtype), "shape": list(a.shape), "data": a.ravel().tolist()}


def dec(d) -> np.ndarray:
    if d is None:
        return None
    if isinstance(d, np.ndarray):
        return d
    if not isinstance(d, dict):
        return np.asarray(d)
    dt = d["dtype"]
    data = d["data"]
    if d.get("as_int64"):
        return np.array(data, dtype="int64").view(dt).reshape(d["shape"])
    conv = {"nan": float("nan"), "inf": float("inf"), "-inf": float("-inf")}
    if np.dtype(dt).kind in "fc":
        data = [conv.get(v, v) if isinstance(v, str) else v for v in data]
    elif dt == "object":
        data = [conv.get(v, v) if isinstance(v, str) and v == "nan" else v for v in data]
        out = np.empty(len(data), dtype=object)
        out[:] = data
        return out.reshape(d["shape"])
    return np.array(data, dtype=dt).reshape(d["shape"])


def dec_scalar(v):
    if isinstance(v, str) and v in ("nan", "inf", "-inf"):
        return float(v)
    return v


# ----------------------------------------------------------------------------------------------
# executing the real function
# ----------------------------------------------------------------------------------------------


def _expected_arg(case):
    eg = case.get("expected_groups")
    if eg is None:
        return None
    import pandas as pd

    def one(e):
        if e is None:
            return None
        if isinstance(e, dict) and e.get("interval"):
            return pd.IntervalIndex.from_breaks(e["breaks"], closed=e.get("closed", "right"))
        if isinstance(e, dict):
            return dec(e)
        if case.get("expected_kind") == "index":
            return pd.Index([dec_scalar(x) for x in e])  # the user hands over a pandas.Index (not sorted by flox's array path)
        return np.array([dec_scalar(x) for x in e])

    if case.get("nby", 1) == 1 and not case.get("expected_tuple"):
        return one(eg[0])
    return tuple(one(e) for e in eg)


def build_call(case):
    """Return (array, bys, kwargs) for groupby_reduce from a case dict."""
    arr = dec(case["array"])
    bys = [dec(b) for b in case["by"]]
    if case.get("chunks") is not None:
        import dask.array as da

        arr = da.from_array(arr, chunks=tuple(tuple(c) for c in case["chunks"]), name=case.get("array_name", None))
    if case.get("by_chunks") is not None:
        import dask.array as da

        # an entry None keeps that grouper in memory (mixed numpy / dask groupers)
        bys = [da.from_array(b, chunks=tuple(tuple(c) for c in ch)) if ch is not None else b for b, ch in zip(bys, case["by_chunks"])]
    kw = {"func": case["func"]}
    if case.get("custom_agg"):
        from .custom_aggs import make

        kw["func"] = make(case["custom_agg"])
    eg = _expected_arg(case)
    if eg is not None:
        kw["expected_groups"] = eg
    for k in ("sort", "axis", "dtype", "min_count", "method", "engine", "finalize_kwargs", "isbin"):
        if k in case and case[k] is not None:
            v = case[k]
            if k == "axis" and isinstance(v, list):
                v = tuple(v)
            if k == "isbin" and isinstance(v, list):
                v = tuple(v)
            kw[k] = v
    if "fill_value" in case and case["fill_value"] is not None:
        kw["fill_value"] = dec_scalar(case["fill_value"])
    if case.get("reindex") is not None:
        kw["reindex"] = case["reindex"]
    return arr, bys, kw


def run_case(case, compute=True, scheduler="sync"):
    """Execute groupby_reduce on the case. Returns dict(ok, result, groups, exc_type, exc_msg, lazy)."""
    import dask

    from flox.core import groupby_reduce

    arr, bys, kw = build_call(case)
    out = {"ok": False, "lazy": None}
    cfg = {}
    if case.get("split_every"):
        cfg["split_every"] = case["split_every"]
    try:
        with warnings.catch_warnings():
            warnings.simplefilter("ignore")
            with dask.config.set(**cfg):
                res, *groups = groupby_reduce(arr, *bys, **kw)
                if hasattr(res, "dask"):
                    out["lazy"] = {
                        "dtype": str(res.dtype),
                        "shape": [None if (isinstance(s, float) and s != s) else int(s) for s in res.shape],
                        "chunks": [[None if (isinstance(c, float) and c != c) else int(c) for c in ch] for ch in res.chunks],
                        "meta_type": type(res._meta).__name__,
                        "ntasks": len(res.__dask_graph__()),
                    }
                    out["lazy_obj"] = res
                    out["lazy_groups"] = groups
                    if compute:
                        res, *groups = dask.compute(res, *groups, scheduler=scheduler)
                out["result"] = np.asarray(res) if compute or not hasattr(res, "dask") else None
                out["groups"] = [g if hasattr(g, "dask") and not compute else np.asarray(g) for g in groups]
                out["ok"] = True
    except Exception as e:  # classified by the caller
        out["exc_type"] = type(e).__name__
        out["exc_msg"] = str(e)[:300]
    return out


# ----------------------------------------------------------------------------------------------
# the specification (oracle): NumPy on the members of each group
# ----------------------------------------------------------------------------------------------


def _isnull_scalar(v):
    if isinstance(v, (float, np.floating)):
        return v != v
    if isinstance(v, (np.datetime64, np.timedelta64)):
        return np.isnat(v)
    return False


def isnull_arr(a):
    if a.dtype.kind == "f":
        return np.isnan(a)
    if a.dtype.kind in "Mm":
        return np.isnat(a)
    if a.dtype.kind == "O":
        return np.array([_isnull_scalar(v) for v in a.ravel()], dtype=bool).reshape(a.shape)
    return np.zeros(a.shape, dtype=bool)


def label_codes(by, expected, isbin, sort):
    """code(label, expected) of DESIGN §3. Returns (codes ndarray of by.shape, labels list/Index)."""
    import pandas as pd

    flat = by.ravel()
    null = isnull_arr(flat)
    if isbin:
        if isinstance(expected, pd.IntervalIndex):
            bins = expected
        else:
            bins = pd.IntervalIndex.from_breaks(expected)
        if sort:
            bins = bins.sort_values()
        if len(bins) == 0:
            return np.full(by.shape, -1), bins
        x = flat.astype("float64") if flat.dtype.kind in "iub" else flat
        codes = np.asarray(pd.cut(x, bins=bins).codes).astype(np.intp)
        return codes.reshape(by.shape), bins
    if expected is None:
        vals = [v for v, n in zip(flat.tolist(), null.tolist()) if not n]
        seen = {}
        for v in vals:
            if v not in seen:
                seen[v] = len(seen)
        labels = list(seen)
        if sort:
            labels = sorted(labels)
    else:
        labels = list(np.asarray(expected).tolist())
        if sort:
            labels = sorted(labels)
    lut = {}
    for i, lab in enumerate(labels):
        lut.setdefault(lab, i)
    codes = np.array([(-1 if n else lut.get(v, -1)) for v, n in zip(flat.tolist(), null.tolist())], dtype=np.intp)
    return codes.reshape(by.shape), labels


def _q(case):
    fk = case.get("finalize_kwargs") or {}
    return fk.get("q")


def spec_reduce(func, m, pos, case):
    """SPEC[func] on the 1-D member array m (original order); pos = positions along the reduced axis."""
    fk = case.get("finalize_kwargs") or {}
    ddof = fk.get("ddof", 0)
    if case.get("custom_agg"):
        from .custom_aggs import numpy_spec

        return numpy_spec(case["custom_agg"], m)
    with warnings.catch_warnings(), np.errstate(all="ignore"):
        warnings.simplefilter("ignore")
        if func == "count":
            return int((~isnull_arr(m)).sum())
        if func in ("sum", "nansum", "prod", "nanprod", "mean", "nanmean", "max", "min", "nanmax", "nanmin", "any", "all"):
            if m.dtype.kind == "b" and func not in ("any", "all"):
                m = m.astype(np.int_)
            if m.dtype.kind in "Mm" and func in ("mean", "nanmean"):
                mm = m.view("int64").astype("float64")
                mm[np.isnat(m)] = np.nan
                r = getattr(np, func)(mm)
                if r != r:
                    return np.array("NaT", dtype=m.dtype)[()]
                return np.array(int(np.trunc(r)), dtype="int64").view(m.dtype)[()]
            if m.dtype.kind in "Mm":
                # numpy: max/min propagate NaT; nanmax/nanmin skip it
                if func in ("nanmax", "nanmin"):
                    mm = m[~np.isnat(m)]
                    if mm.size == 0:
                        return np.array("NaT", dtype=m.dtype)[()]
                    return getattr(np, func[3:])(mm)
                return getattr(np, func)(m)
            return getattr(np, func)(m)
        if func in ("var", "nanvar", "std", "nanstd"):
            if m.dtype.kind == "b":
                m = m.astype(np.int_)
            return getattr(np, func)(m, ddof=ddof)
        if func in ARG_FUNCS:
            return int(pos[getattr(np, func)(m)])
        if func == "first":
            return m[0]
        if func == "last":
            return m[-1]
        if func in ("nanfirst", "nanlast"):
            ok = np.nonzero(~isnull_arr(m))[0]
            if ok.size == 0:
                return m[0] if func == "nanfirst" else m[-1]
            return m[ok[0]] if func == "nanfirst" else m[ok[-1]]
        if func == "median":
            return np.median(m)
        if func == "nanmedian":
            return np.nanmedian(m)
        if func == "quantile":
            return np.quantile(m, fk["q"], method="linear")
        if func == "nanquantile":
            return np.nanquantile(m, fk["q"], method="linear")
    raise KeyError(func)


def expected_dtype(func, in_dtype, dtype=None, fill_value=None):
    """The dtype table of property C11, written from the property text (not from the code)."""
    in_dtype = np.dtype(in_dtype)
    if func in ("range", "sumcubes", "msq"):
        return np.dtype("float64")
    if dtype is not None:
        base = np.dtype(dtype)
    elif func in ("count",) + ARG_FUNCS:
        base = np.dtype(np.intp)
    elif func in ("any", "all"):
        base = np.dtype(bool)
    elif func in ("sum", "nansum", "prod", "nanprod"):
        if in_dtype.kind == "b":
            base = np.dtype(np.int_)
        elif in_dtype.kind == "i":
            base = np.result_type(in_dtype, np.int_)
        elif in_dtype.kind == "u":
            base = np.result_type(in_dtype, np.uint)
        else:
            base = in_dtype
    elif func in ("mean", "nanmean", "var", "nanvar", "std", "nanstd", "median", "nanmedian"):
        base = in_dtype if in_dtype.kind in "fcmM" else np.dtype("float64")
    elif func in ("quantile", "nanquantile"):
        base = np.dtype("float64")
    else:  # min max first last and nan-variants: input dtype
        base = in_dtype
    if in_dtype.kind == "b" and dtype is None and func in ("min", "max", "nanmin", "nanmax", "first", "last", "nanfirst", "nanlast"):
        fv = dec_scalar(fill_value)
        if fill_value is None or fv in (0, 1, False, True):
            return np.dtype(bool)  # input dtype; False/True hold 0/1
    if fill_value is not None and base.kind not in "Mm":
        base = np.result_type(base, dec_scalar(fill_value))
    return base


def oracle(case):
    """Return dict(result, dontcare, groups(list of label arrays), shape). All NumPy."""
    arr = dec(case["array"])
    bys = [dec(b) for b in case["by"]]
    func = case["func"]
    nby = len(bys)
    sort = case.get("sort", True) if case.get("sort") is not None else True
    eg = case.get("expected_groups") or [None] * nby
    isbin = case.get("isbin") or False
    isbins = list(isbin) if isinstance(isbin, (list, tuple)) else [isbin] * nby

    def exp_one(e):
        import pandas as pd

        if e is None:
            return None
        if isinstance(e, dict) and e.get("interval"):
            return pd.IntervalIndex.from_breaks(e["breaks"], closed=e.get("closed", "right"))
        if isinstance(e, dict):
            return dec(e)
        return [dec_scalar(x) for x in e]

    bshape = np.broadcast_shapes(*[b.shape for b in bys])
    codes_l, labels_l = [], []
    for b, e, ib in zip(bys, eg, isbins):
        c, labs = label_codes(b, exp_one(e), ib, sort)
        codes_l.append(np.broadcast_to(c, bshape))
        labels_l.append(labs)
    grp_shape = tuple(len(l) for l in labels_l)
    ngroups = math.prod(grp_shape)
    dropped = np.zeros(bshape, dtype=bool)
    for c in codes_l:
        dropped |= c < 0
    if nby > 1:
        safe = [np.where(c < 0, 0, c) for c in codes_l]
        code = np.ravel_multi_index(safe, grp_shape) if ngroups > 0 else np.zeros(bshape, dtype=np.intp)
    else:
        code = codes_l[0].copy()
    code = np.where(dropped, -1, code)

    bnd = len(bshape)
    axis = case.get("axis")
    if axis is None:
        red = tuple(range(arr.ndim - bnd, arr.ndim))
    else:
        red = tuple(a % arr.ndim for a in (axis if isinstance(axis, (list, tuple)) else [axis]))
    red_sorted = tuple(sorted(red))
    kept = tuple(a for a in range(arr.ndim) if a not in red_sorted)
    full_code = np.broadcast_to(code, arr.shape[:-bnd] + tuple(arr.shape[arr.ndim - bnd + i] for i in range(bnd)))
    full_code = np.broadcast_to(full_code, arr.shape)
    A = np.transpose(arr, kept + red_sorted)
    C = np.transpose(full_code, kept + red_sorted)
    kshape = A.shape[: len(kept)]
    R = math.prod(A.shape[len(kept) :])
    A = A.reshape(kshape + (R,))
    C = C.reshape(kshape + (R,))

    fill = dec_scalar(case.get("fill_value"))
    min_count = case.get("min_count")
    q = _q(case)
    qvec = q is not None and not np.isscalar(q)
    nq = len(q) if qvec else 0
    odt = expected_dtype(func, arr.dtype, case.get("dtype"), case.get("fill_value"))
    # container in float/object so that every value is representable; cast/compare later
    out = np.empty(((nq,) if qvec else ()) + kshape + (ngroups,), dtype=object)
    dontcare = np.zeros(out.shape, dtype=bool)
    provided_expected = case.get("expected_groups") is not None
    partial_axis = len(red_sorted) < bnd
    for k in np.ndindex(*kshape):
        for g in range(ngroups):
            sel = np.nonzero(C[k] == g)[0]
            m = A[k][sel]
            nvalid = int((~isnull_arr(m)).sum())
            idx = (Ellipsis,) + k + (g,) if qvec else k + (g,)
            if m.size == 0:
                out[idx] = fill
                if fill is None:
                    dontcare[idx] = True
                continue
            if min_count is not None and min_count > 0 and nvalid < min_count:
                out[idx] = fill
                if fill is None:
                    dontcare[idx] = True
                continue
            if func in ("nanargmax", "nanargmin") and m.dtype.kind == "f":
                # NumPy itself is undefined: all-NaN group (raises), or NaN mixed with the opposite
                # infinity (np.nanargmax([nan, -inf]) == 0 because NaN is replaced by -inf)
                opp = -np.inf if func == "nanargmax" else np.inf
                if nvalid == 0 or (nvalid < m.size and (m == opp).any()):
                    out[idx] = None
                    dontcare[idx] = True
                    continue
            if func in ARG_FUNCS and len(red_sorted) > 1:
                # an index "along the reduced axis" is only defined for a single reduced axis
                out[idx] = None
                dontcare[idx] = True
                continue
            if func in ("argmax", "argmin") and nvalid < m.size:
                out[idx] = None
                dontcare[idx] = True
                continue
            val = spec_reduce(func, m, sel, case)
            if qvec:
                out[idx] = list(np.asarray(val).tolist())
            else:
                out[idx] = val
            if nvalid == 0 and min_count is None:
                # present but all-missing: flox documents an implicit min_count=1 whenever a fill is requested
                # with expected_groups, for partial-axis reductions and for nanmin/nanmax; the property leaves it open
                if (fill is not None and provided_expected) or partial_axis or func in ("nanmax", "nanmin"):
                    dontcare[idx] = True
    res_shape = ((nq,) if qvec else ()) + kshape + grp_shape
    groups = []
    for labs in labels_l:
        groups.append(labs)
    return {"result": out.reshape(res_shape), "dontcare": dontcare.reshape(res_shape), "groups": groups, "dtype": odt}


def _num_equal(a, b, exact, rtol=1e-9):
    """a: flox value (numpy scalar), b: oracle value."""
    if b is None:
        return True
    an = _isnull_scalar(a) if not isinstance(a, (np.ndarray,)) else False
    bn = _isnull_scalar(b)
    if an or bn:
        return bool(an and bn)
    if isinstance(b, (np.datetime64, np.timedelta64)) or isinstance(a, (np.datetime64, np.timedelta64)):
        try:
            return bool(a == b)
        except Exception:
            return False
    try:
        af, bf = float(a), float(b)
    except (TypeError, ValueError):
        return bool(a == b)
    if af == bf:
        return True
    if exact:
        return False
    if isinstance(a, (np.float32, np.float16)) or isinstance(b, (np.float32, np.float16)):
        rtol = max(rtol, 1e-5)  # single precision: agreement to single-precision rounding is all that can be asked
    if math.isinf(af) or math.isinf(bf):
        return False
    return abs(af - bf) <= rtol * max(1.0, abs(af), abs(bf))


def compare(case, got, spec, check_dtype=False):
    """Return None if the postcondition holds, else a short reason string."""
    func = case["func"]
    exact = func in EXACT_FUNCS or np.dtype(spec["dtype"]).kind in "iub"
    res = got["result"]
    exp = spec["result"]
    if tuple(res.shape) != tuple(exp.shape):
        return f"shape {tuple(res.shape)} != spec {tuple(exp.shape)}"
    for idx in np.ndindex(*exp.shape):
        if spec["dontcare"][idx]:
            continue
        ev = exp[idx]
        if np.dtype(spec["dtype"]).kind in "iu" and isinstance(ev, (float, np.floating)) and ev == ev and not math.isinf(ev) and ev != int(ev):
            # a floating statistic delivered in a requested integer dtype: NumPy's own answer (np.mean(x, dtype=int64)) is
            # the value converted to that dtype, i.e. truncated
            ev = int(ev)
        if not _num_equal(res[idx], ev, exact):
            return f"value at {idx}: got {res[idx]!r} spec {exp[idx]!r}"
    # groups
    if len(got["groups"]) != len(spec["groups"]):
        return f"number of group arrays {len(got['groups'])} != {len(spec['groups'])}"
    for gi, (gg, sg) in enumerate(zip(got["groups"], spec["groups"])):
        import pandas as pd

        if isinstance(sg, pd.IntervalIndex):
            ok = len(gg) == len(sg) and all(a == b for a, b in zip(list(gg), list(sg)))
        else:
            gl = list(np.asarray(gg).tolist())
            ok = len(gl) == len(sg) and all((a == b) or (_isnull_scalar(a) and _isnull_scalar(b)) for a, b in zip(gl, sg))
        if not ok:
            return f"groups[{gi}]: got {list(np.asarray(gg).tolist())!r} spec {list(sg)!r}"
    if check_dtype and res.dtype != spec["dtype"]:
        return f"dtype {res.dtype} != spec {spec['dtype']}"
    return None


def _flat(x):
    for v in x:
        if isinstance(v, list):
            yield from _flat(v)
        else:
            yield v


def signature(case):
    """The fields known-finding regions may refer to."""
    arr = case["array"]
    data = arr["data"] if isinstance(arr, dict) else []
    return {
        "func": case["func"],
        "engine": case.get("engine"),
        "method": case.get("method"),
        "reindex": case.get("reindex"),
        "chunked": case.get("chunks") is not None,
        "by_dask": case.get("by_chunks") is not None,
        "has_nan": "nan" in data,
        "has_inf": ("inf" in data) or ("-inf" in data),
        "dtype_in": arr.get("dtype") if isinstance(arr, dict) else None,
        "sort": case.get("sort"),
        "has_expected": case.get("expected_groups") is not None,
        "nby": len(case["by"]),
        "min_count": case.get("min_count"),
        "fill_given": case.get("fill_value") is not None,
        "no_valid_label": bool(case.get("expected_groups") is None and all(isinstance(b, dict) and len(b.get("data", [])) > 0 and all(v == "nan" for v in _flat(b["data"])) for b in case["by"])),
        "has_big_int": bool(isinstance(arr, dict) and str(arr.get("dtype", "")).startswith(("int64", "uint64")) and any(isinstance(v, int) and abs(v) > 2**53 for v in data)),
    }


def check_case(case, allowed_exc=("ValueError", "NotImplementedError", "ImportError"), refusal_ok=False, check_dtype=False):
    """Evaluate the contract on one case.  Returns None (holds) or dict(case, why, sig)."""
    got = run_case(case)
    sig = signature(case)
    if not got["ok"]:
        sig["exc_type"] = got["exc_type"]
        if refusal_ok and got["exc_type"] in allowed_exc:
            return None
        return {"case": case, "why": f"raised {got['exc_type']}: {got['exc_msg']}", "sig": sig}
    try:
        spec = oracle(case)
    except Exception as e:  # an oracle crash is a checker problem, not a violation
        return {"case": case, "why": f"ORACLE-ERROR {type(e).__name__}: {e}", "sig": sig, "checker_error": True}
    why = compare(case, got, spec, check_dtype=check_dtype)
    if why is None:
        return None
    return {"case": case, "why": why, "sig": sig}


# ----------------------------------------------------------------------------------------------
# enumeration helpers
# ----------------------------------------------------------------------------------------------


def compositions(n):
    """All ordered tuples of positive ints summing to n."""
    if n == 0:
        yield ()
        return
    for first in range(1, n + 1):
        for rest in compositions(n - first):
            yield (first,) + rest


def label_patterns(n, kmax, with_missing=True):
    """All label arrays of length n over {0..k-1} (+ -1 for missing) in restricted-growth form (up to relabelling)."""

    def rec(prefix, used):
        if len(prefix) == n:
            yield tuple(prefix)
            return
        opts = list(range(min(used + 1, kmax)))
        if with_missing:
            opts = [-1] + opts
        for o in opts:
            yield from rec(prefix + [o], max(used, o + 1))

    yield from rec([], 0)


def covering_values(n, alphabet, rng, nsamples):
    """nsamples value vectors of length n such that every position takes every alphabet element at least once."""
    out = []
    k = len(alphabet)
    for s in range(max(nsamples, k)):
        out.append([alphabet[(s + i * (1 + s // k)) % k] for i in range(n)])
    for _ in range(max(0, nsamples - len(out))):
        out.append([alphabet[rng.integers(k)] for _ in range(n)])
    rng.shuffle(out)
    return out[: max(nsamples, k)]


# ----------------------------------------------------------------------------------------------
# relational contract: chunked == eager (C02 and friends)
# ----------------------------------------------------------------------------------------------

ALLOWED_EXC = ("ValueError", "NotImplementedError", "ImportError")


def eager_variant(case):
    c = dict(case)
    for k in ("chunks", "by_chunks", "method", "reindex", "split_every"):
        c.pop(k, None)
    return c


def arrays_equal(a, b, exact, rtol=1e-9, skip=None):
    a = np.asarray(a)
    b = np.asarray(b)
    if a.shape != b.shape:
        return f"shape {a.shape} != {b.shape}"
    if skip is not None and skip.shape == a.shape:
        for idx in np.ndindex(*a.shape):
            if not skip[idx] and not _num_equal(a[idx], b[idx], exact, rtol):
                return f"value at {idx}: {a[idx]!r} != {b[idx]!r}"
        return None
    if a.dtype.kind in "OUS" or b.dtype.kind in "OUS":
        for idx in np.ndindex(*a.shape):
            x, y = a[idx], b[idx]
            if not ((x == y) or (_isnull_scalar(x) and _isnull_scalar(y))):
                return f"value at {idx}: {x!r} != {y!r}"
        return None
    for idx in np.ndindex(*a.shape):
        if not _num_equal(a[idx], b[idx], exact, rtol):
            return f"value at {idx}: {a[idx]!r} != {b[idx]!r}"
    return None


def blockwise_precondition(case):
    """Every label (of the flattened broadcast label arrays) lies inside one block of the chunking of the reduced axes."""
    bys = [dec(b) for b in case["by"]]
    if case.get("chunks") is None:
        return True
    if len(bys) == 1 and bys[0].ndim == 1 and case.get("by_chunks") is None:
        # 1-D in-memory labels: flox rechunks automatically (treating missing labels as one more label);
        # that is exact only for sequential labels (C17), so the precondition is run-contiguity.
        labs = ["__missing__" if (isinstance(x, float) and x != x) else x for x in bys[0].tolist()]
        seen = set()
        prev = object()
        for x in labs:
            if x != prev:
                if x in seen:
                    return False
                seen.add(x)
                prev = x
        return True
    shape = np.broadcast_shapes(*[b.shape for b in bys])
    nd = len(shape)
    chunks = case["chunks"][-nd:]
    blk = np.zeros(shape, dtype=np.intp)
    mult = 1
    for ax in range(nd - 1, -1, -1):
        ids = np.repeat(np.arange(len(chunks[ax])), chunks[ax])
        sh = [1] * nd
        sh[ax] = shape[ax]
        blk = blk + ids.reshape(sh) * mult
        mult *= len(chunks[ax])
    keys = {}
    flat_blk = blk.ravel()
    flats = [np.broadcast_to(b, shape).ravel().tolist() for b in bys]
    for i in range(flat_blk.size):
        key = tuple(f[i] for f in flats)
        if any(isinstance(k, float) and k != k for k in key):
            continue
        keys.setdefault(key, set()).add(int(flat_blk[i]))
    return all(len(v) == 1 for v in keys.values())


def check_chunked_vs_eager(case, check_meta=False):
    """Contract: the chunked call computes exactly what the eager call returns (values, groups[, dtype/shape/chunks])."""
    sig = signature(case)
    ec = eager_variant(case)
    e = run_case(ec)
    if not e["ok"]:
        if e["exc_type"] in ALLOWED_EXC:
            return None  # outside the domain: the eager call itself refuses
        sig["exc_type"] = e["exc_type"]
        return {"case": ec, "why": f"eager call raised {e['exc_type']}: {e['exc_msg']}", "sig": sig}
    d = run_case(case, scheduler=case.get("scheduler", "sync"))
    if not d["ok"]:
        sig["exc_type"] = d["exc_type"]
        if d["exc_type"] in ALLOWED_EXC:
            return None  # refused cleanly (C19 decides whether the refusal is legitimate)
        return {"case": case, "why": f"chunked call raised {d['exc_type']}: {d['exc_msg']}", "sig": sig}
    func = case["func"]
    exact = func in EXACT_FUNCS or np.asarray(e["result"]).dtype.kind in "iub"
    skip = None
    if func in ARG_FUNCS:
        # where NumPy itself is undefined (all-NaN groups, NaN next to the opposite infinity, NaN for arg*)
        try:
            skip = oracle(ec)["dontcare"]
        except Exception:
            skip = None
    why = arrays_equal(d["result"], e["result"], exact, skip=skip)
    if why:
        return {"case": case, "why": "chunked != eager: " + why + f" (eager={np.asarray(e['result']).tolist()}, chunked={np.asarray(d['result']).tolist()})", "sig": sig}
    if len(d["groups"]) != len(e["groups"]):
        return {"case": case, "why": "number of group arrays differs", "sig": sig}
    for i, (gd, ge) in enumerate(zip(d["groups"], e["groups"])):
        w = arrays_equal(gd, ge, True)
        if w:
            return {"case": case, "why": f"groups[{i}] chunked != eager: {w} ({np.asarray(gd).tolist()} vs {np.asarray(ge).tolist()})", "sig": sig}
    if check_meta and d.get("lazy"):
        lz = d["lazy"]
        res = np.asarray(d["result"])
        if lz["dtype"] != str(res.dtype):
            return {"case": case, "why": f"announced dtype {lz['dtype']} != computed {res.dtype}", "sig": sig}
        if str(np.asarray(e["result"]).dtype) != str(res.dtype):
            return {"case": case, "why": f"chunked dtype {res.dtype} != eager dtype {np.asarray(e['result']).dtype}", "sig": sig}
        if all(s is not None for s in lz["shape"]) and tuple(lz["shape"]) != tuple(res.shape):
            return {"case": case, "why": f"announced shape {lz['shape']} != computed {res.shape}", "sig": sig}
    return None
