"""Run-time contract of flox.dask_array_ops._tree_reduce / partial_reduce / get_parts (bounded stand-in):
the hand-written tree reduction is an ordered partition refinement of the block range of the reduced axis."""

from __future__ import annotations

import itertools


def check_tree(case):
    import dask

    from flox.dask_array_ops import _tree_reduce
    from flox.lib import ArrayLayer

    nb, nbatch, s, block_index = case["nblocks"], case["nbatch"], case["split_every"], case["block_index"]
    sig = {"part": "tree", "split_every": s}
    name, dep = "out", "dep"
    chunks = ((1,) * nbatch, (1,) * nb)
    layer = {(dep, b, i): ("leaf", b, i) for b in range(nbatch) for i in range(nb)}
    x = ArrayLayer(layer=layer, chunks=chunks, name=dep)
    dsk = {}

    def agg(*a, **k):
        return None

    try:
        with dask.config.set(split_every=case.get("config_split", 4)):
            out, out_chunks = _tree_reduce(x, name=name, out_dsk=dsk, aggregate=agg, axis=(1,), block_index=block_index, split_every=s, combine=agg)
    except Exception as e:
        sig["exc_type"] = type(e).__name__
        return {"case": case, "why": f"_tree_reduce raised {type(e).__name__}: {e}", "sig": sig}
    # every task is (func, nested list of keys); recover, per task, the ordered list of dependency keys
    def flat(g):
        if isinstance(g, list):
            for y in g:
                yield from flat(y)
        else:
            yield g

    deps = {k: list(flat(v[1])) for k, v in out.items()}
    # final layer: exactly one key per batch index, at block_index along the reduced axis
    finals = [k for k in out if k[0] == name]
    want = {(name, b, block_index) for b in range(nbatch)}
    if set(finals) != want or len(finals) != len(want):
        return {"case": case, "why": f"final keys {sorted(finals)} != {sorted(want)} (a root is missing, duplicated or overwritten)", "sig": sig}
    if tuple(tuple(c) for c in out_chunks) != ((1,) * nbatch, (1,)):
        return {"case": case, "why": f"out_chunks {out_chunks} != one block along the reduced axis", "sig": sig}
    # walk down from each root: leaves must be exactly dep[b, 0..nb-1], each once, in increasing order
    for b in range(nbatch):
        def leaves(k):
            if k[0] == dep:
                return [k]
            if k not in deps:
                raise KeyError(k)
            out_ = []
            for d in deps[k]:
                out_.extend(leaves(d))
            return out_

        try:
            lv = leaves((name, b, block_index))
        except KeyError as e:
            return {"case": case, "why": f"dangling dependency {e}", "sig": sig}
        if lv != [(dep, b, i) for i in range(nb)]:
            return {"case": case, "why": f"batch {b}: leaves under the root are {[k[2] for k in lv]} (expected 0..{nb - 1} once each, in order; other batch index: {[k for k in lv if k[1] != b][:3]})", "sig": sig}
    # every task combines at most split_every consecutive inputs, all levels
    s_eff = s if isinstance(s, int) else 4
    for k, d in deps.items():
        idx = [q[2] for q in d]
        if len(d) == 0 or len(d) > max(s_eff, 2) or idx != list(range(idx[0], idx[0] + len(idx))) or any(q[1] != k[1] for q in d):
            return {"case": case, "why": f"task {k} combines {d}: not 1..split_every consecutive blocks of its own batch index", "sig": sig}
    # names of the levels are pairwise distinct from the dependency's name
    if any(k[0] == dep for k in out):
        return {"case": case, "why": "a level re-uses the name of its dependency", "sig": sig}
    # every intermediate key is used exactly once
    used = [q for d in deps.values() for q in d if q[0] != dep]
    if len(used) != len(set(used)) or set(used) != {k for k in out if k[0] != name}:
        return {"case": case, "why": "an intermediate block is used twice or never", "sig": sig}
    return None


def tree_cases(nmax, smax):
    cases = []
    for nb in range(1, nmax + 1):
        for s in list(range(2, smax + 1)) + [None]:
            for nbatch in (1, 2):
                cases.append(dict(nblocks=nb, nbatch=nbatch, split_every=s, block_index=[0, 3][nb % 2]))
    return cases
