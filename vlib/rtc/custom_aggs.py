"""Three user-defined Aggregation objects for C04 (module-level functions so that graphs pickle)."""

import numpy as np


def _grouped(func):
    def f(group_idx, array, *, axis=-1, size=None, fill_value=None, dtype=None, **kw):
        import numpy_groupies as npg

        return npg.aggregate_numpy.aggregate(group_idx, array, func=func, axis=axis, size=size, fill_value=fill_value, dtype=dtype)

    return f


def grouped_sumcubes(group_idx, array, *, axis=-1, size=None, fill_value=None, dtype=None, **kw):
    import numpy_groupies as npg

    a = np.where(np.isnan(array), 0, array) ** 3
    return npg.aggregate_numpy.aggregate(group_idx, a, func="sum", axis=axis, size=size, fill_value=fill_value, dtype=dtype)


def grouped_range(group_idx, array, *, axis=-1, size=None, fill_value=None, dtype=None, **kw):
    import numpy_groupies as npg

    mx = npg.aggregate_numpy.aggregate(group_idx, array, func="nanmax", axis=axis, size=size, fill_value=np.nan)
    mn = npg.aggregate_numpy.aggregate(group_idx, array, func="nanmin", axis=axis, size=size, fill_value=np.nan)
    return mx - mn


def range_finalize(mx, mn):
    # a group without any valid member still carries the neutral fills (-inf, +inf): its range is undefined (NaN)
    with np.errstate(invalid="ignore"):
        return np.where((mx == -np.inf) & (mn == np.inf), np.nan, mx - mn)


def msq_finalize(s, c):
    with np.errstate(invalid="ignore", divide="ignore"):
        return s / c


def grouped_msq(group_idx, array, *, axis=-1, size=None, fill_value=None, dtype=None, **kw):
    import numpy_groupies as npg

    valid = ~np.isnan(array)
    s = npg.aggregate_numpy.aggregate(group_idx, np.where(valid, array, 0) ** 2, func="sum", axis=axis, size=size, fill_value=0)
    c = npg.aggregate_numpy.aggregate(group_idx, valid.astype(int), func="sum", axis=axis, size=size, fill_value=0)
    with np.errstate(invalid="ignore", divide="ignore"):
        return s / c


def make(name):
    from flox import xrdtypes as dtypes
    from flox.aggregations import Aggregation

    if name == "range":
        return Aggregation(
            "range", numpy=grouped_range, chunk=("nanmax", "nanmin"), combine=("nanmax", "nanmin"), finalize=range_finalize,
            fill_value=(dtypes.NINF, dtypes.INF), final_fill_value=np.nan, final_dtype=np.float64,
        )
    if name == "sumcubes":
        return Aggregation(
            "sumcubes", numpy=grouped_sumcubes, chunk=(grouped_sumcubes,), combine=("sum",), fill_value=0, final_fill_value=0, final_dtype=np.float64,
        )
    if name == "msq":
        return Aggregation(
            "msq", numpy=grouped_msq, chunk=("nansum_of_squares", "nanlen"), combine=("sum", "sum"), finalize=msq_finalize,
            fill_value=(0, 0), dtypes=(None, np.intp), final_fill_value=np.nan, final_dtype=np.float64,
        )
    raise KeyError(name)


def numpy_spec(name, m):
    """The law the user aggregation denotes, on the members m of one group."""
    with np.errstate(all="ignore"):
        import warnings

        with warnings.catch_warnings():
            warnings.simplefilter("ignore")
            if name == "range":
                return np.nanmax(m) - np.nanmin(m)
            if name == "sumcubes":
                return np.nansum(m**3)
            if name == "msq":
                return np.nansum(m**2) / np.count_nonzero(~np.isnan(m))
    raise KeyError(name)
