"""Shared enumerators for the bounded stand-ins: the domain D(n) of DESIGN.md §5."""

from __future__ import annotations

import itertools

import numpy as np

from .reduce_case import FLOAT_ALPHABET, compositions, enc, label_patterns

NAN = float("nan")
INF = float("inf")

REDUCTIONS = [
    "sum", "nansum", "prod", "nanprod", "mean", "nanmean", "var", "nanvar", "std", "nanstd",
    "max", "nanmax", "min", "nanmin", "argmax", "nanargmax", "argmin", "nanargmin",
    "first", "nanfirst", "last", "nanlast", "count", "any", "all",
]  # fmt: skip
ORDER_STATS = ["median", "nanmedian", "quantile", "nanquantile"]
ENGINES = [None, "numpy", "flox", "numbagg", "numba"]
CHUNKABLE = [f for f in REDUCTIONS if f not in ("first", "last")]

INT_ALPHABET = [-2, -1, 0, 1, 3]


def rng_for(ctx, salt=0):
    return np.random.default_rng(ctx.seed * 1000003 + salt)


def values_for(func, n, rng, k, dtype="float64"):
    """k value vectors of length n appropriate for func (restrictions of property C01)."""
    out = []
    if func in ("any", "all") or dtype == "bool":
        for _ in range(k):
            out.append(np.array(rng.integers(0, 2, size=n), dtype=bool))
        return out
    if dtype.startswith("int") or dtype.startswith("uint"):
        alpha = INT_ALPHABET if dtype.startswith("int") else [0, 1, 2, 3, 7]
        if func in ("max", "min", "nanmax", "nanmin", "first", "last", "nanfirst", "nanlast", "argmax", "argmin", "nanargmax", "nanargmin", "count", "any", "all"):
            # the extremes of the dtype are data too (they coincide with the sentinels used as intermediate fills)
            info = np.iinfo(dtype)
            alpha = list(alpha) + [int(info.min), int(info.max)]
        if func in ("sum", "nansum", "prod", "nanprod", "mean", "var", "std") and dtype in ("int8", "uint8"):
            alpha = [a for a in alpha if a >= 0] if dtype == "uint8" else alpha
        for s in range(k):
            out.append(np.array([alpha[(s + i * (1 + s // len(alpha))) % len(alpha)] if s < len(alpha) else alpha[rng.integers(len(alpha))] for i in range(n)], dtype=dtype))
        return out
    alpha = list(FLOAT_ALPHABET)
    if func in ("argmax", "argmin"):
        alpha = [a for a in alpha if a == a]  # groups free of NaN
    if func in ("prod", "nanprod", "var", "nanvar", "std", "nanstd", "mean", "nanmean", "sum", "nansum") and False:
        pass
    for s in range(k):
        if s < len(alpha):
            v = [alpha[(s + i * (1 + s // len(alpha))) % len(alpha)] for i in range(n)]
        else:
            v = [alpha[rng.integers(len(alpha))] for _ in range(n)]
        out.append(np.array(v, dtype=dtype))
    return out


def labels_to_array(pattern, kind="int"):
    """pattern: tuple over {-1,0,1,..}; kind int -> ints with -1 mapped to missing via float NaN when present."""
    p = np.array(pattern)
    if kind == "float" or (p < 0).any():
        lab = np.where(p < 0, np.nan, p * 10.0 + 5.0)  # labels 5., 15., 25. ; NaN = missing
        return lab
    return (p * 10 + 5).astype("int64")


def all_chunkings(n, maxn=None):
    return list(compositions(n))


def sample(lst, k, rng):
    lst = list(lst)
    if len(lst) <= k:
        return lst
    idx = rng.choice(len(lst), size=k, replace=False)
    return [lst[i] for i in sorted(idx)]
