#!/usr/bin/env python3
"""Regenerate MANIFEST.json from the table below (kept in one place so that it stays valid)."""
import json, os

BASELINE = "cd /repo && /venv/bin/python -m pytest -ra -q -p no:cacheprovider --timeout=900 --continue-on-collection-errors"
TRUST = "Assumed contracts (conformance-tested, not proved): numpy/pandas/toolz/dask/numpy_groupies/numbagg primitives; Python ints mathematical; floats as extended reals without rounding; z3/cvc5 sound."

CLAIMS = {}
NA = {}

def load():
    import importlib.util
    spec = importlib.util.spec_from_file_location("claims", os.path.join(os.path.dirname(__file__), "claims.py"))
    m = importlib.util.module_from_spec(spec); spec.loader.exec_module(m)
    return m.CLAIMS, m.NOT_APPLICABLE

def main():
    claims, na = load()
    checks = []
    for pid in sorted(claims):
        c = claims[pid]
        checks.append({
            "property_id": pid,
            "quick_cmd": f"./check {pid} --tier quick",
            "thorough_cmd": f"./check {pid} --tier thorough",
            "evidence_file": f"/verif/evidence/{pid}.json",
            "replay_cmd_template": f"./check {pid} --replay {{path}}",
            "engine": c.get("engine", "pyvc+rtc"),
            "level_claimed": {"category": c["category"], "text": c["text"], "design_ref": c.get("design_ref", "DESIGN.md §5")},
            "level_note": c.get("note", TRUST),
            "technique": c["technique"],
        })
    man = {
        "version": 1,
        "setup_cmd": "./setup.sh",
        "hooks": {"guard": "FLOX_VERIF", "enable": "no hooks: contracts are sidecar files under /verif; checks read /repo/flox/*.py and import the working tree", "baseline_off_cmd": BASELINE, "source_commits": [], "add_only": True},
        "engines": [
            {"name": "pyvc", "path": "vlib/pyvc", "kind_free_text": "verification-condition generator: symbolic execution of the AST of the real functions under sidecar contracts, discharged by z3 (cvc5 for unknowns)", "serves_properties": sorted(p for p in claims if "pyvc" in claims[p].get("engine", "pyvc+rtc"))},
            {"name": "framecheck", "path": "vlib/framecheck", "kind_free_text": "frame / purity / laziness / token-coverage obligations by abstract interpretation of the same AST", "serves_properties": sorted(p for p in claims if "framecheck" in claims[p].get("engine", ""))},
            {"name": "rtc", "path": "vlib/rtc", "kind_free_text": "run-time contracts on the real functions over enumerated bounded domains (bounded stand-in, never counted as proved); replay of counter-models", "serves_properties": sorted(claims)},
        ],
        "checks": checks,
        "not_applicable": [{"property_id": k, "reason": v} for k, v in sorted(na.items())],
        "notes": "Technique family: contract-based deductive verification of the real code (self-generated VCs from the Python AST, z3/cvc5). Bounded run-time-contract enumerations are labelled as such in every evidence file. Exit codes: 0 held, 1 violation, 2 undecided, 3 checker failure.",
    }
    with open(os.path.join(os.path.dirname(__file__), "MANIFEST.json"), "w") as f:
        json.dump(man, f, indent=1)
    print("MANIFEST.json:", len(checks), "checks,", len(na), "not applicable")

main()
