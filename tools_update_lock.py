#!/usr/bin/env python3
"""Record the obligations discharged on the unchanged tree (run after `./check <PID>` for every property).
obligations.lock.json is committed; a check run compares against it (missing id => checker failure;
locked id no longer discharged => violation of that obligation)."""
import glob, json, os
root = os.path.dirname(os.path.abspath(__file__))
lock = json.load(open(os.path.join(root, "obligations.lock.json"))) if os.path.exists(os.path.join(root, "obligations.lock.json")) else {}  # properties not re-run keep their entry
for f in sorted(glob.glob(os.path.join(root, "out", "obligations", "*.json"))):
    pid = os.path.basename(f)[:-5]
    names = json.load(open(f))
    if names:
        lock[pid] = names
json.dump(lock, open(os.path.join(root, "obligations.lock.json"), "w"), indent=0, sort_keys=True)
print({k: len(v) for k, v in lock.items()})
